"""Helpers shared by the property rules."""
from __future__ import annotations

import ast
import os as _os
from typing import Dict, Iterator, List, Optional, Set, Tuple

from .expr import C, SELF, canon, root_of, show, strip_epochs, walk
from .intervals import TYPE_RANGE, Iv
from .model import AnalysisError, ClassInfo, FuncInfo, Program
from .walk import Event, State, Walker

_PATH_CACHE: Dict[tuple, List[State]] = {}
ANALYSED: Dict[tuple, int] = {}  # (context, function) -> paths enumerated, for the evidence of the running check
_TYPED_CACHE: Dict[tuple, Dict[str, Set[str]]] = {}


def paths(prog: Program, ctx: Optional[str], func: FuncInfo, inline: str = "light", second: bool = True,
          no_inline: Tuple[str, ...] = (), force_inline: Tuple[str, ...] = (), param_types: Optional[dict] = None,
          max_states: int = 4000, opaque=None, alias: bool = True) -> List[State]:
    if inline == "light":
        # the default policy (see anchors.py): functions in the anchor table stay calls, everything else is looked through
        inline, opaque = "deep", OPAQUE
    key = (id(prog), ctx, func.qualname, inline, no_inline, force_inline, tuple(sorted((param_types or {}).items())), id(opaque) if opaque is not None else 0, alias)
    ANALYSED[(ctx or "", func.qualname)] = max(ANALYSED.get((ctx or "", func.qualname), 0), len(_PATH_CACHE[key]) if key in _PATH_CACHE else 0)
    if key not in _PATH_CACHE:
        pt = {"second": "<ctx>"} if second else {}
        pt.update(param_types or {})
        w = Walker(prog, ctx, inline=inline, param_types=pt, no_inline=no_inline, force_inline=force_inline,
                   max_states=max_states, opaque=opaque)
        if alias:
            # a field proved to always hold the last element of a list field of the same object is read as that element
            w.alias_provider = lambda cname: last_alias_fields(prog, cname)
        _PATH_CACHE[key] = w.run(func)
        ANALYSED[(ctx or "", func.qualname)] = max(ANALYSED.get((ctx or "", func.qualname), 0), len(_PATH_CACHE[key]))
    return _PATH_CACHE[key]


def clear_caches():
    ANALYSED.clear()
    _PATH_CACHE.clear()
    _TYPED_CACHE.clear()
    _DERIVED_CACHE.clear()
    _ALIAS_CACHE.clear()
    _LEMMA_CACHE.clear()
    _EFFECTS.clear()
    from . import walk as _w
    _w._FIELD_CLASS_CACHE.clear()
    _w._RET_CLASS_CACHE.clear()


def normal(ps: List[State]) -> List[State]:
    return [p for p in ps if p.exit and p.exit[0] == "return"]


def raising(ps: List[State]) -> List[State]:
    return [p for p in ps if p.exit and p.exit[0] == "raise"]


def typed_fields(prog: Program, cname: str) -> Dict[str, Set[str]]:
    """field -> set of array typecodes it may be allocated with in context cname ('mmap' for a mapping).
    Derived by walking the constructor with full inlining and reading the allocation sites."""
    key = (id(prog), cname)
    if key in _TYPED_CACHE:
        return _TYPED_CACHE[key]
    K = prog.cls(cname)
    init = K.find_method("__init__")
    out: Dict[str, Set[str]] = {}
    if init is None:
        _TYPED_CACHE[key] = out
        return out
    ps = paths(prog, cname, init, inline="deep")
    for p in ps:
        for e in p.events:
            if e.kind != "setfield" or e.base != SELF:
                continue
            for n in walk(e.value):
                if n[0] == "newb" and n[1] == "array" and n[3]:
                    tc = n[3][0]
                    out.setdefault(e.name, set()).add(tc[1] if tc[0] == "c" else "?" + show(tc))
                elif n[0] == "fileobj" and n[2] == "mmap":
                    out.setdefault(e.name, set()).add("mmap")
    _TYPED_CACHE[key] = out
    return out


def class_of_root(prog: Program, ctx: Optional[str], e: tuple, param_types: Optional[dict] = None) -> Optional[str]:
    r = root_of(e)
    while r and r[0] == "it":
        r = root_of(r[2])
    if r == SELF:
        return ctx
    if r and r[0] == "new":
        return r[1]
    if r and r[0] == "p":
        t = (param_types or {"second": "<ctx>"}).get(r[1])
        return ctx if t == "<ctx>" else t
    return None


def outer_field(e: tuple) -> Optional[str]:
    """self._buckets[i][j] -> '_buckets' (field closest to the root object)"""
    name = None
    while isinstance(e, tuple) and e and e[0] in ("f", "sub", "slice", "it"):
        if e[0] == "f":
            name = e[2]
        e = e[2] if e[0] == "it" else e[1]
    return name


def cell_range_fn(prog: Program, ctx: Optional[str]):
    def cell_range(cont: tuple) -> Optional[Iv]:
        fld = outer_field(cont)
        if fld is None:
            return None
        cn = class_of_root(prog, ctx, cont)
        if cn is None or cn not in prog.classes:
            return None
        tcs = typed_fields(prog, cn).get(fld)
        if not tcs:
            return None
        r = None
        for tc in tcs:
            rng = (0, 255) if tc == "mmap" else TYPE_RANGE.get(tc)
            if rng is None:
                return None
            r = rng if r is None else (min(r[0], rng[0]), max(r[1], rng[1]))
        return r
    return cell_range


def all_events(ps: List[State], kind: Optional[str] = None) -> Iterator[Tuple[State, Event]]:
    for p in ps:
        for e in p.events:
            if kind is None or e.kind == kind:
                yield p, e


def conds_at(p: State, e: Event) -> List[tuple]:
    """normalised atoms known true when event e happened on path p"""
    out = []
    for c in p.conds[: e.ncond]:
        if c.atom[0] == "loop0":
            continue
        atom = _length_atom(c.atom)
        if c.truth:
            out.append(atom)
        else:
            from .expr import _norm_node
            n = ("un", "not", atom)
            out.append(_norm_node(n) or n)
    return out


def _length_atom(atom):
    """truthiness of a tail slice is a statement about the length: x[k:] is non-empty exactly when len(x) > k (k a non-negative constant)"""
    a = strip_epochs(atom)
    if a[0] == "slice" and a[2][0] == "c" and isinstance(a[2][1], int) and not isinstance(a[2][1], bool) and a[2][1] >= 0 \
            and a[3] == C(None) and a[4] == C(None):
        return ("cmp", ">", ("call", ("g", "len"), (atom[1],), ()), a[2])
    return atom


def all_conds(p: State) -> List[tuple]:
    class _E:
        ncond = len(p.conds)
    return conds_at(p, _E)  # type: ignore


def own_methods(prog: Program, cname: str) -> List[FuncInfo]:
    c = prog.cls(cname)
    return list(c.methods.values()) + list(c.setters.values()) + list(c.getters.values())


def visible_methods(prog: Program, cname: str) -> List[FuncInfo]:
    c = prog.cls(cname)
    out = []
    seen = set()
    for k in c.mro():
        for coll in (k.methods, k.getters, k.setters):
            for n, f in coll.items():
                tag = (n, f.prop)
                if tag not in seen:
                    seen.add(tag)
                    out.append(f)
    return out


def construct_text(e: Event) -> str:
    """normalised construct for finding keys: no line numbers, no loop ids"""
    from .expr import canon_loops, strip_epochs
    if e.kind == "setelem":
        return f"{_nshow(e.cont)}[*] = {_nshow(e.value)}"
    if e.kind == "setfield":
        return f"{_nshow(e.base)}.{e.name} = {_nshow(e.value)}"
    return e.brief()


def _nshow(x) -> str:
    import re
    from .expr import strip_epochs
    s = show(strip_epochs(x))
    s = re.sub(r"@\d+:\d+c?\+?", "", s)
    s = re.sub(r"#\w+", "", s)
    if len(s) > 120:
        s = s[:117] + "..."
    return s


def nshow(x) -> str:
    return _nshow(x)


def mro_methods(prog: Program, cname: str) -> List[FuncInfo]:
    """every method defined in any class of the MRO, shadowed ones included (they stay reachable through super())"""
    out = []
    for k in prog.cls(cname).mro():
        out += list(k.methods.values()) + list(k.getters.values()) + list(k.setters.values())
    return out


def alloc_typecodes(prog: Program, cname: str, fld: str) -> Set[str]:
    """typecodes of the fresh allocations  array(tc, [0]) * n  of self.<fld> in the constructor (loaders excluded)"""
    out: Set[str] = set()
    K = prog.cls(cname)
    init = K.find_method("__init__")
    if init is None:
        return out
    for p in paths(prog, cname, init, inline="deep"):
        for e in p.events:
            if e.kind == "setfield" and e.base == SELF and e.name == fld and e.value[0] == "nary" and e.value[1] == "*":
                for x in e.value[2]:
                    if x[0] == "newb" and x[1] == "array" and x[3] and x[3][0][0] == "c":
                        out.add(x[3][0][1])
    return out


from .anchors import OPAQUE  # noqa: E402

CM_ANCHORS = OPAQUE


def apaths(prog: Program, ctx: Optional[str], func: FuncInfo, anchors=OPAQUE, **kw) -> List[State]:
    """paths under the anchor policy (the default of paths()): every function outside the anchor table is looked through"""
    return paths(prog, ctx, func, inline="deep", opaque=anchors, **kw)


def unclamped(v, bounds=None):
    """the value under its saturation (when `bounds` is given: only under saturation at exactly those documented limits - a clamp
    at any other constant changes the value and is kept): min(K, x) / max(K, x) with a constant K (either argument order, nested), and the
    conditional spelling (K if x > K else x), are read as x.  Whether the bounds are the right ones is C16's obligation;
    rules that ask 'by how much does this move' look at the value before saturation."""
    from .expr import is_num_const
    while True:
        if v[0] == "call" and v[1] in (("g", "min"), ("g", "max")) and len(v[2]) == 2 and not v[3]:
            a, b = v[2]
            if is_num_const(a) and not is_num_const(b) and (bounds is None or a[1] in bounds):
                v = b
                continue
            if is_num_const(b) and not is_num_const(a) and (bounds is None or b[1] in bounds):
                v = a
                continue
        if v[0] == "phi" and v[1][0] == "cmp" and v[1][1] in ("<", "<=", ">", ">="):
            x, k = v[1][2], v[1][3]
            if is_num_const(x):
                x, k = k, x
            if is_num_const(k) and {v[2], v[3]} == {x, k} and (bounds is None or k[1] in bounds):
                v = x
                continue
        return v


_DERIVED_CACHE: Dict[tuple, tuple] = {}


def _read_back(v, back):
    """v with (largest first) every sub-expression that equals a value just stored into a field replaced by a read of that field;
    inside a flattened product / sum a stored product / sum may be a sub-multiset of the operands"""
    if not isinstance(v, tuple) or not v:
        return v
    if v in back:
        return back[v]
    if v[0] == "nary":
        items = list(v[2])
        for val, fld in sorted(back.items(), key=lambda kv: -len(repr(kv[0]))):
            if val[0] == "nary" and val[1] == v[1] and len(val[2]) < len(items):
                rest = list(items)
                try:
                    for x in val[2]:
                        rest.remove(x)
                except ValueError:
                    continue
                items = rest + [fld]
        out = [_read_back(x, back) for x in items]
        acc = out[0]
        for x in out[1:]:
            acc = ("bin", v[1], acc, x)  # re-normalised (flattened and sorted) by the caller
        return acc
    if isinstance(v[0], str):
        return (v[0],) + tuple(_read_back(x, back) if isinstance(x, tuple) else x for x in v[1:])
    return tuple(_read_back(x, back) for x in v)


CONTAINER_METHODS = {"__setitem__", "__delitem__", "pop", "get", "append", "add", "discard", "remove", "clear", "popitem", "update", "setdefault", "insert", "extend", "items", "keys", "values"}


def held_method_call(prog: Program, cname: str, e: Event):
    """a call through a field that remembers a bound method of a container held by the same object (self._drop = self._table.pop ... self._drop(k)):
    (container expression, method name, stale) - stale is None when every path that re-binds the container refreshes the remembered method,
    else (function, event) of a re-binding that does not; None when the call is not of that kind"""
    if e.kind != "call" or e.d.get("fn") is None:
        return None
    fn = strip_epochs(e.fn)
    if not (fn[0] == "f" and fn[1] == SELF):
        return None
    derived, stale = maintained_derived(prog, cname)
    F = derived.get(fn[2])
    if F is None or F[0] != "f":
        return None
    st = stale.get(fn[2])
    return F[1], F[2], (st[0], st[1]) if st else None


_EFFECTS = {}


def _effects_of(prog, cname, f):
    from .effects import Effects
    E = _EFFECTS.get(id(prog))
    if E is None:
        E = _EFFECTS[id(prog)] = Effects(prog)
    return E.of(cname, f)


def maintained_derived(prog: Program, cname: str):
    """fields of `cname` that remember a formula over other fields of the same object - ({field: formula}, {field: reason it is stale}).
    A field D qualifies when EVERY assignment to it in the class hierarchy stores one and the same expression F over other fields
    (values the path has just stored into those fields are read back as the fields).  D is *maintained* when, on every path of every
    method, an assignment to a field F mentions is followed by an assignment to D; otherwise the second map says where it goes stale."""
    from .expr import canon, mapx, norm
    key = (id(prog), cname)
    if key in _DERIVED_CACHE:
        return _DERIVED_CACHE[key]
    forms: Dict[str, set] = {}
    order = []  # (func, [(event index, field name)]) per path, own assignments only
    for f in mro_methods(prog, cname):
        if f.prop == "get":
            continue
        for p in paths(prog, cname, f):
            cur: Dict[str, tuple] = {}
            seq = []
            final: Dict[str, tuple] = {}
            for i, e in enumerate(p.events):
                if e.kind != "setfield" or e.base != SELF:
                    continue
                v = strip_epochs(e.value)
                back = {val: ("f", SELF, n, 0) for n, val in cur.items() if val[0] not in ("c",) and n != e.name}
                v2 = canon(norm(_read_back(v, back)))
                final[e.name] = v2
                cur[e.name] = v
                seq.append((i, e.name, e))
            # what counts is the value a path LEAVES in the object it returns: a placeholder that the same path overwrites - itself, or
            # through a method of the class called afterwards (whose own paths are judged) - is not a second formula
            if p.exit and p.exit[0] == "return":
                last_i = {n_: max(i for i, m_, _ in seq if m_ == n_) for n_ in final}
                for j, e in enumerate(p.events):
                    if e.kind == "call" and e.target is not None and not e.d.get("inlined") and e.target.cls is not None and e.d.get("recv") == SELF:
                        wr = {x[1] for x in _effects_of(prog, cname, e.target) if x[0] == "self"}
                        for n_ in list(final):
                            if n_ in wr and j > last_i[n_]:
                                del final[n_]
                for n_, v2 in final.items():
                    forms.setdefault(n_, set()).add(v2)
            if p.exit and p.exit[0] == "return":
                order.append((f, seq))
    derived = {}
    for d, fs in forms.items():
        if len(fs) != 1:
            continue
        F = next(iter(fs))
        ins = {n[2] for n in walk(F) if n[0] == "f" and n[1] == SELF and n[2] != d}
        pure = all(n[0] in ("f", "c", "nary", "bin", "un", "self", "phi", "tup", "cmp") or not isinstance(n[0], str) or
                   (n[0] == "call" and n[1][0] == "ext" and n[1][1] == "math") or (n[0] == "ext" and n[1] == "math") for n in walk(F))
        if ins and pure and F[0] in ("nary", "bin", "call", "phi", "tup"):
            derived[d] = F
        elif F[0] == "f" and F[1][0] == "f" and F[1][1] == SELF and F[1][2] != d and F[2] in CONTAINER_METHODS:
            derived[d] = F  # a remembered bound method of a container the object holds: stale as soon as that field is re-bound
    stale = {}
    for d, F in derived.items():
        ins = {n[2] for n in walk(F) if n[0] == "f" and n[1] == SELF and n[2] != d}
        for f, seq in order:
            last_in = max([i for i, n, _ in seq if n in ins], default=None)
            if last_in is None:
                continue
            last_d = max([i for i, n, _ in seq if n == d], default=-1)
            if last_d < last_in:
                ev = [e for i, n, e in seq if i == last_in][0]
                stale.setdefault(d, (f, ev, sorted(ins)))
    _DERIVED_CACHE[key] = (derived, stale)
    return derived, stale


def expand_derived(prog: Program, cname: str, v):
    """v with every read of a maintained derived field replaced by the formula it remembers"""
    from .expr import mapx
    derived, stale = maintained_derived(prog, cname)
    ok = {d: F for d, F in derived.items() if d not in stale}
    return mapx(strip_epochs(v), lambda n: ok.get(n[2]) if (n[0] == "f" and n[1] == SELF and n[2] in ok) else None)


LAZY_ITERATORS = {("g", "map"), ("g", "zip"), ("g", "filter"), ("g", "iter"), ("g", "reversed"), ("g", "enumerate")}


def _is_lazy_iterator(v) -> bool:
    return (v[0] == "call" and v[1] in LAZY_ITERATORS) or (v[0] == "comp" and v[1] == "gen") or v[0] == "iterunp"


def iterator_reuse(p: State):
    """[(event, iterator value)]: a one-shot iterator (map / zip / filter / iter / generator expression) bound to a name outside a loop
    and consumed - walked by a `for`, or handed to a call other than next() - inside that loop: the first round exhausts it and
    every later round sees nothing."""
    out = []
    made = []  # (value, loops at the binding)
    for e in p.events:
        if e.kind == "bind" and e.d.get("value") is not None:
            v = strip_epochs(e.value)
            alts = [v[2], v[3]] if v[0] == "phi" else [v]
            for a in alts:
                if _is_lazy_iterator(a):
                    made.append((a, tuple(e.loops)))
        used = []
        if e.kind == "call" and e.name != "next":
            for a in list(e.args) + [v_ for v_ in (e.kwargs or {}).values()]:
                a = strip_epochs(a)
                used += [a[2], a[3]] if a[0] == "phi" else [a]
            here = tuple(e.loops)
        elif e.kind == "bind" and e.d.get("value") is not None and strip_epochs(e.value)[0] == "it":
            d = strip_epochs(e.value)[2]
            used += [d[2], d[3]] if d[0] == "phi" else [d]
            here = tuple(e.loops)[:-1]  # the consuming loop itself does not count
        else:
            continue
        for (v, lp) in made:
            if v in used and len(here) > len(lp) and here[:len(lp)] == lp:
                out.append((e, v))
    return out


def saturating_move(p: State, e: Event, want, bounds) -> bool:
    """the value event e stores is `want` saturated at the documented bounds: the plain sum (possibly inside min / max at exactly
    those bounds), or - statement form - the upper (lower) bound on a path that has established  want > upper  (want < lower)"""
    from .expr import canon
    v = canon(strip_epochs(e.value))
    want = canon(want)
    if unclamped(v, bounds) == want:
        return True
    if v[0] == "c" and v[1] in bounds:
        for c in conds_at(p, e):
            c = strip_epochs(c)
            if c[0] != "cmp" or c[1] not in (">", ">=", "<", "<="):
                continue
            a, b, op = c[2], c[3], c[1]
            if canon(b) == want and a[0] == "c":
                a, b, op = b, a, {">": "<", ">=": "<=", "<": ">", "<=": ">="}[op]
            if canon(a) != want or b[0] != "c":
                continue
            if v[1] == bounds[1] and ((op == ">" and b[1] == bounds[1]) or (op == ">=" and b[1] in (bounds[1], bounds[1] + 1))):
                return True
            if v[1] == bounds[0] and ((op == "<" and b[1] == bounds[0]) or (op == "<=" and b[1] in (bounds[0], bounds[0] - 1))):
                return True
    return False


def lazy_iterator_reread(func: FuncInfo):
    """syntactic companion of iterator_reuse: [(name, line)] for a local name that is bound (once) to a one-shot iterator -
    zip / map / filter / iter / reversed / enumerate or a generator expression - and read at two or more places other than next(name):
    whatever the order of evaluation (a retry in an except handler, a second pass), the second reader sees an exhausted iterator."""
    import ast
    binds: Dict[str, list] = {}
    for n in ast.walk(func.node):
        if isinstance(n, ast.Assign) and len(n.targets) == 1 and isinstance(n.targets[0], ast.Name):
            v = n.value
            lazy = isinstance(v, ast.GeneratorExp) or (isinstance(v, ast.Call) and isinstance(v.func, ast.Name) and v.func.id in ("zip", "map", "filter", "iter", "reversed", "enumerate"))
            binds.setdefault(n.targets[0].id, []).append((lazy, n.lineno))
        elif isinstance(n, (ast.AugAssign, ast.AnnAssign, ast.For, ast.comprehension, ast.NamedExpr, ast.With)):
            for t in ast.walk(getattr(n, "target", None) or ast.Pass()):
                if isinstance(t, ast.Name):
                    binds.setdefault(t.id, []).append((False, getattr(n, "lineno", 0)))
    names = {k for k, v in binds.items() if len(v) == 1 and v[0][0]}
    if not names:
        return []
    in_next = set()
    for n in ast.walk(func.node):
        if isinstance(n, ast.Call) and isinstance(n.func, ast.Name) and n.func.id == "next" and n.args and isinstance(n.args[0], ast.Name):
            in_next.add(id(n.args[0]))
    reads: Dict[str, list] = {}
    for n in ast.walk(func.node):
        if isinstance(n, ast.Name) and isinstance(n.ctx, ast.Load) and n.id in names and id(n) not in in_next:
            reads.setdefault(n.id, []).append(n.lineno)
    return [(k, v[1]) for k, v in sorted(reads.items()) if len(v) >= 2]


def raw_flag_identity_tests(prog: Program, ctx: str, func: FuncInfo, ps=None):
    """[(condition, flag expression, why)]: decisions of `func` taken by IDENTITY with True / False (`x is True`, `x is not False`,
    ...) on a flag that is whatever the caller passed - a parameter, or a field the constructor fills from a parameter without bool() -
    so that a truthy non-bool (1, "yes") or a falsy one (0, None) takes the other branch than its truth value says."""
    out = []
    init = prog.cls(ctx).find_method("__init__") if ctx else None
    raw_fields = set()
    if init is not None:
        for p in paths(prog, ctx, init, inline="deep"):
            if p.exit[0] != "return":
                continue
            last = {}
            for e in p.events:
                if e.kind == "setfield" and e.base == SELF:
                    last[e.name] = strip_epochs(e.value)
            for k, v in last.items():
                if v[0] == "p":
                    raw_fields.add(k)
                elif k in raw_fields and v[0] != "p":
                    pass
    for p in (ps if ps is not None else paths(prog, ctx, func)):
        for c in p.conds:
            a = strip_epochs(c.atom)
            if a[0] == "cmp" and a[1] in ("is", "isnot") and a[3][0] == "c" and isinstance(a[3][1], bool):
                x = a[2]
                if x[0] == "p":
                    out.append((c, x, f"the parameter {x[1]}"))
                elif x[0] == "f" and x[1] == SELF and x[2] in raw_fields:
                    out.append((c, x, f"self.{x[2]}, which the constructor stores as passed"))
    return out


def alias_view(p: State, mapping: dict):
    """a read-only view of path p in which every occurrence of the expressions in `mapping` (keys compared after strip_epochs) is
    replaced by its image: used when a local object provably stands for a field (a working copy that replaces the field at the end)"""
    import copy as _copy
    from types import SimpleNamespace
    from .expr import mapx
    from .walk import Cond, Event

    def sub(v):
        if not isinstance(v, tuple):
            return v
        return mapx(v, lambda n: mapping.get(strip_epochs(n)))

    def subd(d):
        out = {}
        for k, v in d.items():
            if isinstance(v, tuple):
                out[k] = sub(v)
            elif isinstance(v, list):
                out[k] = [sub(x) if isinstance(x, tuple) else x for x in v]
            elif isinstance(v, dict):
                out[k] = {kk: (sub(x) if isinstance(x, tuple) else x) for kk, x in v.items()}
            else:
                out[k] = v
        return out
    events = [Event(e.kind, e.node, e.func, e.loops, e.ncond, e.depth, subd(e.d)) for e in p.events]
    conds = [Cond(sub(c.atom), c.truth, c.node, c.func, c.loops) for c in p.conds]
    ex = p.exit
    if ex is not None and len(ex) > 1 and isinstance(ex[1], tuple):
        ex = (ex[0], sub(ex[1])) + tuple(ex[2:])
    return SimpleNamespace(events=events, conds=conds, exit=ex, fields={k: sub(v) for k, v in p.fields.items()}, notes=getattr(p, "notes", []))


_LEMMA_CACHE = {}


def empty_subfilter_lemma(prog, E, wctx):
    """None when 'a sub-filter whose counter is 0 has all-zero cells' is an invariant of wctx, else the reason it is not: every store into a
    sub-filter's cells reachable from wctx happens in a function whose every storing path also raises that sub-filter's counter, and the counter
    is written nowhere else (a fresh sub-filter starts with counter 0 and zero cells)"""
    key = (id(prog), wctx)
    if key in _LEMMA_CACHE:
        return _LEMMA_CACHE[key]
    why = None
    sites = set()
    for f in mro_methods(prog, wctx):
        for e in E.of(wctx, f):
            if e[0] == "self" and e[1].startswith("_blooms[*].") and e[1].split(".", 1)[1] in ("_bloom", "_els_added"):
                sites.add((e[1].split(".", 1)[1], e[2], e[3].split("@")[0]))
    fns = {q for (_, _, q) in sites}
    for q in sorted(fns):
        cn, fn = q.split(".", 1)
        g = prog.classes[cn].find_method(fn) if cn in prog.classes else None
        if g is None:
            why = f"{q} writes a sub-filter and could not be resolved"
            break
        for pp in paths(prog, cn, g):
            st_ = [e for e in pp.events if e.kind == "setelem" and strip_epochs(e.cont) == ("f", SELF, "_bloom", 0)]
            up = [e for e in pp.events if e.kind == "setfield" and e.base[0] == "self" and e.name == "_els_added"]
            raised = any(canon(strip_epochs(e.value))[0] in ("bin", "nary") and any(n[0] == "f" and n[2] == "_els_added" for n in walk(e.value))
                         and any(n[0] == "c" and isinstance(n[1], int) and n[1] > 0 for n in walk(e.value))
                         and not any(n[0] in ("bin",) and n[1] == "-" for n in walk(e.value)) for e in up)
            if st_ and not raised:
                why = f"{q} stores into a sub-filter's cells on a path that does not raise its counter: a sub-filter with counter 0 may hold set bits"
                break
            if up and not raised:
                why = f"{q} rewrites a sub-filter's counter ({nshow(up[-1].value)}): a sub-filter with counter 0 may hold set bits"
                break
        if why:
            break
    _LEMMA_CACHE[key] = why
    return why


def empty_filter_reports_absent(prog, cls="BloomFilter"):
    """None when cls.check_alt cannot answer anything but False on all-zero cells, else the reason: every path that returns something other than
    False either runs the probe loop zero times over range(number of hashes) (the constructor rejects zero hashes) or has taken a branch on which
    `cell & mask` of a cell of the bit array was non-zero, which all-zero cells cannot satisfy"""
    key = (id(prog), cls, "absent")
    if key in _LEMMA_CACHE:
        return _LEMMA_CACHE[key]
    g = prog.classes[cls].find_method("check_alt") if cls in prog.classes else None
    why = None
    if g is None:
        why = f"{cls}.check_alt not found"
    else:
        def cell_and(x):
            return x[0] in ("nary", "bin") and x[1] == "&" and any(n[0] == "sub" and n[1][0] == "f" and n[1][2] == "_bloom" for n in walk(x))
        for pp in paths(prog, cls, g):
            if pp.exit[0] != "return" or strip_epochs(pp.exit[1]) == C(False):
                continue
            ok = False
            for c in pp.conds:
                a = strip_epochs(c.atom)
                if a[0] == "loop0" and c.truth and any(n[0] == "f" and n[2] == "_number_hashes" for n in walk(a[2])):
                    ok = True
                elif cell_and(a) and c.truth:
                    ok = True
                elif a[0] == "cmp" and C(0) in (a[2], a[3]) and cell_and(a[3] if a[2] == C(0) else a[2]) and \
                        ((a[1] == "==" and not c.truth) or (a[1] in ("!=", ">") and c.truth)):
                    ok = True
            if not ok:
                why = f"{cls}.check_alt may answer {nshow(pp.exit[1])} without having found a set bit"
                break
    _LEMMA_CACHE[key] = why
    return why



_ALIAS_CACHE: Dict[tuple, Dict[str, str]] = {}
_LIST_MUTATORS = {"pop", "insert", "remove", "clear", "extend", "sort", "reverse", "__delitem__", "__setitem__", "__iadd__"}


def _written_as_last_of(p: State, e: Event, L) -> bool:
    """the assignment behind event e is spelled `<target> = <name>[-1]` and <name> is bound to L on this path"""
    n = e.node
    v = getattr(n, "value", None)
    if not (isinstance(v, ast.Subscript) and isinstance(v.value, ast.Name)):
        return False
    s = v.slice
    minus_one = (isinstance(s, ast.UnaryOp) and isinstance(s.op, ast.USub) and isinstance(s.operand, ast.Constant) and s.operand.value == 1) or \
        (isinstance(s, ast.Constant) and s.value == -1)
    if not minus_one:
        return False
    bound = [strip_epochs(b.value) for b in p.events if b.kind == "bind" and b.name == v.value.id]
    return bool(bound) and bound[-1] == L


def last_alias_fields(prog: Program, cname: str) -> Dict[str, str]:
    """{D: F}: fields D of class cname that, at every exit of every method, hold the very object that is the last element of the list field F
    of the same object (`self._tail` next to `self._blooms`).  Reading D is then reading F[-1].

    Decided by a per-path simulation over the walker's events, with two symbols per object: what D holds and what the last element of F is.
    `F.append(v)` makes v the last element; `F = L` makes it the last element of L (the value appended to L last on the path, else L[-1]);
    `F.pop(0)` / `del F[0]` keep it where the path's conditions give len(F) > 1, any other in-place change of F loses it; `D = v` sets D
    (with `D = F[-1]` setting it to the current last element).  A call to another method of the class is taken by that method's own
    verdict: *establishes* (equal at its exits whatever the entry state) or *preserves* (equal at its exits if equal at entry) - computed
    as a greatest fixed point (partial correctness: the claim is about exits, a call that never returns has none).  The invariant holds when the constructor establishes and every method
    preserves; objects built inside a method (alternate constructors) are tracked like self."""
    key = (id(prog), cname)
    if key in _ALIAS_CACHE:
        return _ALIAS_CACHE[key]
    _ALIAS_CACHE[key] = {}  # while it is being decided, reads are plain field reads
    from .effects import Effects
    from .intervals import EQ, path_orderings
    K = prog.classes.get(cname)
    if K is None:
        return {}
    family = {k.name for k in K.mro()}
    meths = [f for f in mro_methods(prog, cname) if f.prop != "get"]
    allp = {f.qualname: [p for p in paths(prog, cname, f, alias=False) if p.exit and p.exit[0] in ("return", "raise")] for f in meths}

    def fld(base, n):
        return ("f", base, n, 0)
    # candidates: D = F[-1], or D = v with F.append(v) on the same path, or D = L[-1] with F = L on the same path
    cands = set()
    for f in meths:
        for p in allp[f.qualname]:
            sets = [e for e in p.events if e.kind == "setfield" and e.base == SELF]
            apps = [(strip_epochs(e.recv), strip_epochs(e.args[0])) for e in p.events if e.kind == "call" and e.name == "append" and e.d.get("recv") is not None and e.args]
            binds = {strip_epochs(e.value): e.name for e in sets}
            for e in sets:
                v = strip_epochs(e.value)
                if v[0] == "sub" and v[2] == C(-1):
                    if v[1][0] == "f" and v[1][1] == SELF and v[1][2] != e.name:
                        cands.add((e.name, v[1][2]))
                    elif v[1] in binds and binds[v[1]] != e.name:
                        cands.add((e.name, binds[v[1]]))
                for (r, a) in apps:
                    if a == v and r[0] == "f" and r[1] == SELF and r[2] != e.name and v[0] in ("new", "ret", "f", "sub"):
                        cands.add((e.name, r[2]))
    out: Dict[str, str] = {}
    E = Effects(prog) if cands else None
    for (D, F) in sorted(cands):
        est, pres = set(), set()

        def sim(p, entry_equal, D=D, F=F):
            state = {SELF: ["E", "E" if entry_equal else "T0"]}  # base -> [last element of F, what D holds]
            local_last = {}
            fresh = [0]

            def unk(b):
                fresh[0] += 1
                state[b] = [("unk", fresh[0]), ("unk'", fresh[0])]

            def st_of(b):
                if b not in state:
                    unk(b)
                return state[b]
            for e in p.events:
                if e.kind == "setfield" and e.name in (D, F) and (e.base == SELF or e.base[0] == "new"):
                    b = e.base
                    s_ = st_of(b)
                    v = strip_epochs(e.value)
                    if e.name == D:
                        if v == ("sub", fld(b, F), C(-1), 0):
                            s_[1] = s_[0]
                        elif v[0] == "sub" and v[2] == C(-1) and s_[0] == ("lastof", v[1]):
                            s_[1] = s_[0]
                        elif s_[0][0] == "lastof" and _written_as_last_of(p, e, s_[0][1]):
                            s_[1] = s_[0]  # `D = xs[-1]` where the walker abstracts xs[-1] of a freshly built list to "an element"
                        else:
                            s_[1] = ("v", v)
                    else:
                        s_[0] = ("v", local_last[v]) if v in local_last else ("lastof", v)
                elif e.kind == "setelem" and strip_epochs(e.cont)[0] == "f" and strip_epochs(e.cont)[2] == F and strip_epochs(e.cont)[1] in state:
                    b = strip_epochs(e.cont)[1]
                    s_ = st_of(b)
                    s_[0] = ("v", strip_epochs(e.value)) if strip_epochs(e.index) == C(-1) else ("unk", id(e))
                elif e.kind == "call" and e.d.get("recv") is not None:
                    r = strip_epochs(e.recv)
                    if r[0] == "f" and r[2] == F and (r[1] == SELF or r[1][0] == "new") and e.target is None:
                        s_ = st_of(r[1])
                        if e.name == "append" and e.args:
                            s_[0] = ("v", strip_epochs(e.args[0]))
                        elif e.name in ("pop", "__delitem__") and e.args and strip_epochs(e.args[0]) == C(0):
                            ln = ("call", ("g", "len"), (fld(r[1], F),), ())
                            # the removal itself succeeds only on a non-empty list; the last element moves only if it was the only one
                            if EQ in path_orderings([strip_epochs(c) for c in conds_at(p, e)], ln, C(1)):
                                s_[0] = ("unk", id(e))
                        elif e.name in _LIST_MUTATORS:
                            s_[0] = ("unk", id(e))
                    elif r[0] in ("newb", "lst") and e.name == "append" and e.args and e.target is None:
                        local_last[r] = strip_epochs(e.args[0])
                    elif e.target is not None and not e.d.get("inlined") and e.target.cls is not None and e.target.cls.name in family \
                            and (r == SELF or r[0] == "new") and e.target.kind == "method":
                        g = e.target
                        s_ = st_of(r)
                        if g.qualname in est:
                            s_[0] = s_[1] = ("eq", id(e))
                        else:
                            writes = any(x[0] == "self" and x[1] in (D, F) for x in E.of(cname, g))
                            if writes and not (g.qualname in pres and s_[0] == s_[1]):
                                unk(r)
                            elif writes:
                                s_[0] = s_[1] = ("eq", id(e))
                elif e.kind == "new" and e.d.get("obj") is not None and e.d.get("cls") in family or (e.kind == "new" and e.d.get("cls") in {k for k in prog.classes if any(m.name == cname for m in prog.classes[k].mro())}):
                    init = prog.classes[e.cls].find_method("__init__") if e.cls in prog.classes else None
                    b = e.d.get("obj")
                    if b is not None and init is not None and init.qualname in est and not e.d.get("inlined"):
                        state[b] = [("eq", id(e)), ("eq", id(e))]
            return all(s_[0] == s_[1] for s_ in state.values())
        # greatest fixed point: every verdict is assumed, and withdrawn when a path contradicts it under the assumptions still standing.
        # What remains is a set of exit conditions each of which follows from the others - the usual partial-correctness argument (by
        # induction on the depth of the call tree), so a terminating recursion such as __load(path) -> __load(mapped file) is covered
        est.update(f.qualname for f in meths if allp[f.qualname])
        pres.update(est)
        changed = True
        while changed:
            changed = False
            for f in meths:
                ps = allp[f.qualname]
                if f.qualname in est and not all(sim(p, False) for p in ps):
                    est.discard(f.qualname)
                    changed = True
                if f.qualname in pres and not all(sim(p, True) for p in ps):
                    pres.discard(f.qualname)
                    changed = True
        init = K.find_method("__init__")
        if init is not None and init.qualname in est and all(f.qualname in pres for f in meths if allp[f.qualname]):
            out[D] = F
        elif _os.environ.get("VA_DEBUG_ALIAS"):
            print("alias", cname, D, F, "init est:", init is not None and init.qualname in est, "not preserved:", [f.qualname for f in meths if allp[f.qualname] and f.qualname not in pres], "est:", sorted(est))
    _ALIAS_CACHE[key] = out
    return out



def true_atoms(p: State) -> List[tuple]:
    """the atoms a path has established as true, with conjunctions taken apart: a true `a and b` gives a, b; a false `a or b` gives
    not a, not b (epochs stripped)"""
    from .expr import _norm_node
    out = []

    def add(a, truth):
        a = strip_epochs(a)
        if a[0] == "and" and truth:
            for x in a[1]:
                add(x, True)
        elif a[0] == "or" and not truth:
            for x in a[1]:
                add(x, False)
        elif a[0] == "un" and a[1] == "not":
            add(a[2], not truth)
        elif truth:
            out.append(a)
        else:
            n = ("un", "not", a)
            out.append(_norm_node(n) or n)
    for c in p.conds:
        if c.atom[0] != "loop0":
            add(c.atom, c.truth)
    return out



HASH_SLOTS = ("_hash_func", "_hash_function", "_ExpandingBloomFilter__hash_func", "_CuckooFilter__hash_func")


def strategy_calls(prog: Program, ctx: str, fname: str):
    """{(slot field, canonical arguments)} of the calls a method makes - helpers looked through - to the hashing strategy the object holds"""
    f = prog.cls(ctx).find_method(fname)
    out = {}
    if f is None:
        return out
    for p in paths(prog, ctx, f, force_inline=("hashes",)):
        for e in p.events:
            if e.kind == "call" and e.name == "<slot>" and e.d.get("slot") is not None:
                sl = strip_epochs(e.slot)
                if sl[0] == "f" and sl[2] in HASH_SLOTS:
                    out.setdefault((sl[2], tuple(canon(strip_epochs(a)) for a in e.args)), e)
    return out


def query_hashes_like_update(prog: Program, ctx: str, query: str, update: str = "add"):
    """None when every call `query` makes to the hashing strategy is a call `update` makes too (same arguments: same key, same depth);
    else (event, text).  A look-up that probes with another depth relies on hash k of a depth-d call not depending on d, which the
    strategy interface does not promise (a strategy may cut one digest into `depth` pieces)"""
    u, q = strategy_calls(prog, ctx, update), strategy_calls(prog, ctx, query)
    if not u or not q:
        return None
    extra = [k for k in q if k not in u]
    # a probe made only where the strategy is known to be one of the shipped ones (identity test on the slot) is exempt: for those, hash k
    # does not depend on the requested depth (C18.prefix-stable)
    SHIPPED = {"probables.hashes.default_fnv_1a", "probables.hashes.default_md5", "probables.hashes.default_sha256"}
    f = prog.cls(ctx).find_method(query)
    guarded = set()
    for p in paths(prog, ctx, f, force_inline=("hashes",)):
        for e in p.events:
            if e.kind == "call" and e.name == "<slot>" and e.d.get("slot") is not None:
                sl = strip_epochs(e.slot)
                k = (sl[2], tuple(canon(strip_epochs(a)) for a in e.args)) if sl[0] == "f" else None
                if k in extra and not any(c.truth and strip_epochs(c.atom)[0] == "cmp" and strip_epochs(c.atom)[1] in ("is", "==") and strip_epochs(c.atom)[2] == sl
                                          and strip_epochs(c.atom)[3][0] == "func" and strip_epochs(c.atom)[3][1] in SHIPPED for c in p.conds[:e.ncond]):
                    guarded.add(k)  # (here: seen at least once WITHOUT the identity test)
    extra = [k for k in extra if k in guarded]
    if extra:
        return q[extra[0]], f"{query} calls the hashing strategy with ({', '.join(nshow(a) for a in extra[0][1])}), {update} with ({', '.join(nshow(a) for a in next(iter(u))[1])})"
    return None
