"""Reporting: obligations, violations, known findings, evidence files."""
from __future__ import annotations

import json
import os
import time
from dataclasses import dataclass, field
from typing import Dict, List, Optional

from .model import AnalysisError, Program

VERIF = os.path.dirname(os.path.dirname(os.path.abspath(__file__)))
EVID = os.path.join(VERIF, "evidence")
FINDINGS = os.path.join(VERIF, "known_findings.jsonl")


@dataclass
class Violation:
    rule: str
    where: str  # Class.function (context)
    construct: str  # normalised construct, no line numbers
    message: str
    loc: str  # file:line at the time of the run
    extra: dict = field(default_factory=dict)

    @property
    def key(self) -> str:
        return f"{self.rule}|{self.where}|{self.construct}"


class Reporter:
    def __init__(self, pid: str, tier: str, prog: Program, seed: int = 0):
        self.pid = pid
        self.tier = tier
        self.prog = prog
        self.seed = seed
        self.t0 = time.time()
        self.rules: Dict[str, dict] = {}
        self.violations: List[Violation] = []
        self.assumptions: List[str] = []
        self.samples: List[dict] = []
        self.functions: set = set()
        self.contexts: set = set()
        self.paths = 0
        self.extra: dict = {}
        self.trusted: List[str] = []
        self.notes: List[str] = []

    # -- bookkeeping ------------------------------------------------------------
    def rule(self, rid: str, text: str, floor: int = 1):
        self.rules.setdefault(rid, {"text": text, "instances": 0, "discharged": 0, "floor": floor, "violations": 0})

    def ok(self, rid: str, what: str = "", sample: Optional[dict] = None):
        r = self.rules[rid]
        r["instances"] += 1
        r["discharged"] += 1
        if sample is not None and len([s for s in self.samples if s.get("rule") == rid]) < 3:
            d = {"rule": rid, "instance": what}
            d.update(sample)
            self.samples.append(d)
        elif what and len([s for s in self.samples if s.get("rule") == rid]) < 2:
            self.samples.append({"rule": rid, "instance": what})

    def bad(self, rid: str, where: str, construct: str, message: str, loc: str, **extra):
        r = self.rules[rid]
        r["instances"] += 1
        r["violations"] += 1
        v = Violation(rid, where, construct, message, loc, extra)
        if not any(x.key == v.key for x in self.violations):
            self.violations.append(v)

    def analysed(self, func, ctx: Optional[str] = None, npaths: int = 0):
        self.functions.add(getattr(func, "qualname", str(func)))
        if ctx:
            self.contexts.add(ctx)
        self.paths += npaths

    def assume(self, text: str):
        if text not in self.assumptions:
            self.assumptions.append(text)

    def trust(self, text: str):
        if text not in self.trusted:
            self.trusted.append(text)

    def check_floors(self):
        if self.violations:
            return  # a positively identified violation is reported; floors only guard against vacuous passes
        for rid, r in self.rules.items():
            if r["instances"] < r["floor"]:
                raise AnalysisError(
                    f"rule {rid} matched {r['instances']} instance(s), fewer than the {r['floor']} confirmed by hand: "
                    "the anchored construct vanished or changed shape; the rule would pass vacuously")

    # -- output ------------------------------------------------------------------
    def evidence(self, status: str, known: List[dict], new: List[Violation], error: Optional[str] = None) -> dict:
        obligations = sum(r["instances"] for r in self.rules.values())
        discharged = sum(r["discharged"] for r in self.rules.values())
        cov = {
            "explanation": self.extra.get("explanation", ""),
            "obligations": obligations,
            "discharged": discharged,
            "evaluations": max(obligations, 1),
            "distinct_nontrivial": max(len([r for r in self.rules.values() if r["instances"] > 0]), 0),
            "rule": "one evaluation = one rule instance (a store, call site, path, table row or formula) located in "
                    "/repo's current source; distinct_nontrivial = number of different rules with at least one instance",
            "rules": self.rules,
            "functions_analysed": sorted(self.functions),
            "contexts": sorted(self.contexts),
            "paths_enumerated": self.paths,
            "modules": self.prog.digests(),
            "samples": self.samples[:24] or [{"note": "no instance recorded"}],
            "trusted_base": self.trusted,
            "known_findings_matched": known,
            "status": status,
            "checker_cmd": f"./check {self.pid} --tier {self.tier}",
            "exhaustive": False,
        }
        for k, v in self.extra.items():
            if k != "explanation":
                cov[k] = v
        if self.notes:
            cov["notes"] = self.notes
        if error:
            cov["analysis_error"] = error
        if new:
            cov["violations"] = [{"key": v.key, "message": v.message, "loc": v.loc} for v in new]
        return {
            "property_id": self.pid,
            "tier": self.tier,
            "seed": self.seed,
            "level": "other",
            "coverage": cov,
            "assumptions": self.assumptions,
            "wall_s": round(time.time() - self.t0, 3),
            "violations": len(new),
        }


def load_findings() -> List[dict]:
    out = []
    if os.path.exists(FINDINGS):
        with open(FINDINGS) as fh:
            for line in fh:
                line = line.strip()
                if line and not line.startswith("#"):
                    out.append(json.loads(line))
    return out


def finish(rep: Reporter, error: Optional[str] = None, write: bool = True, quiet: bool = False) -> int:
    """print verdict lines, write evidence, return exit code"""
    findings = [f for f in load_findings() if f.get("property") == rep.pid]
    open_keys = {f["key"]: f for f in findings if f.get("status") == "open"}
    known, new = [], []
    for v in rep.violations:
        if v.key in open_keys:
            known.append({"key": v.key, "what": open_keys[v.key].get("what", v.message)})
        else:
            new.append(v)
    stale = [k for k in open_keys if not any(v.key == k for v in rep.violations)]
    if stale:
        rep.notes.append("open known findings no longer derivable: " + "; ".join(stale))
    status = "error" if error else ("violation" if new else "holds")
    ev = rep.evidence(status, known, new, error)
    if write:
        os.makedirs(EVID, exist_ok=True)
        with open(os.path.join(EVID, f"{rep.pid}.json"), "w") as fh:
            json.dump(ev, fh, indent=1, default=str)
    if not quiet:
        for k in known:
            print(f"KNOWN-FINDING: property={rep.pid} {k['what']} [{k['key']}]")
    if error:
        if not quiet:
            print(f"ANALYSIS-ERROR property={rep.pid} {error}")
        return 2
    if new:
        vdir = os.path.join(EVID, "violations")
        if write:
            os.makedirs(vdir, exist_ok=True)
        for i, v in enumerate(new):
            path = os.path.join(vdir, f"{rep.pid}-{i}.json")
            if write:
                with open(path, "w") as fh:
                    json.dump({"property": rep.pid, "rule": v.rule, "where": v.where, "construct": v.construct,
                               "message": v.message, "loc": v.loc, "key": v.key, "extra": v.extra,
                               "root": rep.prog.label}, fh, indent=1, default=str)
            if not quiet:
                print(f"  {v.loc}: [{v.rule}] {v.where}: {v.message}")
                print(f"VIOLATION property={rep.pid} replay={path}")
        return 1
    if not quiet:
        ob = sum(r["instances"] for r in rep.rules.values())
        print(f"OK property={rep.pid} tier={rep.tier} rules={len(rep.rules)} obligations={ob} "
              f"functions={len(rep.functions)} paths={rep.paths} known_findings={len(known)} wall={ev['wall_s']}s"
              + (" selftest fired={fired}/{must_fire} silent={silent}/{must_silent} skipped={skipped}".format(**rep.extra["selftest"])
                 if "selftest" in rep.extra else ""))
    return 0
