"""E3 - write effects (mod sets), interprocedural, per context class.

An effect is (root, field, how, origin):
  root   'self' | 'param:<name>' | 'class' | 'ext' | 'global' | 'unknown'
  field  storage name closest to the root object ('_bloom', '_blooms[*]._bloom', ...)
  how    'rebind' | 'elem' | 'io'
Writes to objects allocated in the function (fresh) are not effects; writes to a file object
opened in the function or handed in by the caller are 'ext' effects (the purpose of an export).
Effect sets are closed over the resolved call graph (callee summaries mapped through receiver
and arguments) to a fixpoint; function-pointer slots are resolved to every method ever stored
in the slot; hash strategies are effect-free by contract (C18 decides it for the shipped ones).
"""
from __future__ import annotations

from typing import Dict, FrozenSet, List, Optional, Set, Tuple

from .common import outer_field, paths
from .expr import SELF, show
from .model import AnalysisError, ClassInfo, FuncInfo, Program
from .walk import IO_MUTATING, MUTATING, READONLY

Eff = Tuple[str, str, str, str]

HASH_SLOTS = {"_hash_func", "_ExpandingBloomFilter__hash_func", "_CuckooFilter__hash_func", "_hash_function"}
PURE_GLOBALS = {"len", "min", "max", "sum", "sorted", "range", "enumerate", "int", "float", "str", "bytes", "bytearray",
                "bool", "isinstance", "list", "tuple", "set", "dict", "abs", "round", "bin", "hex", "ord", "chr", "zip", "map",
                "all", "any", "type", "repr", "iter", "next", "reversed", "memoryview", "divmod", "pow", "format", "hash", "id",
                "callable", "getattr", "hasattr", "filter", "frozenset", "slice", "super", "object", "identity_decorator"}
PURE_EXT_MODULES = {"math", "struct", "binascii", "textwrap", "string", "numbers", "functools", "hashlib", "array", "typing",
                    "pathlib", "io", "os", "os.path", "pathlib.Path", "random", "collections", "itertools", "heapq", "operator", "bisect"}
EXT_EFFECT = {"open", "copyfile", "print", "mmap", "BytesIO", "MMap"}


def roots(e) -> Set[str]:
    """classification of the object(s) an access path hangs off"""
    out: Set[str] = set()
    stack = [e]
    while stack:
        x = stack.pop()
        while isinstance(x, tuple) and x and x[0] in ("f", "sub", "slice"):
            x = x[1]
        if not isinstance(x, tuple) or not x:
            out.add("unknown")
            continue
        k = x[0]
        if k == "self":
            out.add("self")
        elif k == "p":
            out.add("param:" + x[1])
        elif k == "it":
            stack.append(x[2])
        elif k == "phi":
            stack.append(x[2])
            stack.append(x[3])
        elif k in ("new", "newb", "lst", "tup", "set", "dct", "comp", "c", "pack", "nary", "bin", "un", "cmp", "fstr", "struct",
                   "unp", "unpall"):
            out.add("fresh")
        elif k == "fileobj":
            out.add("ext")
        elif k == "cls":
            out.add("class")
        elif k == "call":
            fn = x[1]
            if fn[0] == "g" and fn[1] in ("sorted", "list", "bytes", "bytearray", "array", "dict", "set", "tuple", "enumerate",
                                          "range", "str", "int", "float", "map", "zip", "reversed"):
                out.add("fresh")
            elif fn[0] == "ext":
                out.add("fresh")
            elif fn[0] == "m" and fn[2] in ("pop", "get"):
                stack.append(fn[1])
            elif fn[0] == "m" and fn[2] in ("copy", "tobytes", "tolist", "getvalue", "read", "encode", "decode", "digest",
                                            "lower", "format", "join", "keys", "values", "items", "expanduser", "resolve",
                                            "unpack", "unpack_from", "pack"):
                out.add("fresh")
            else:
                out.add("unknown")
        elif k in ("ext", "g", "extmod", "func"):
            out.add("global")
        elif k == "ret":
            out.add("ret:" + x[1])
        else:
            out.add("unknown")
    return out


def field_path(e) -> str:
    """_blooms[*]._bloom style path from the root object"""
    parts = []
    x = e
    while isinstance(x, tuple) and x and x[0] in ("f", "sub", "slice", "it"):
        if x[0] == "f":
            parts.append("." + x[2])
            x = x[1]
        elif x[0] == "it":
            parts.append("[*]")
            x = x[2]
        else:
            parts.append("[*]")
            x = x[1]
    s = "".join(reversed(parts)).lstrip(".")
    # collapse repeated [*]
    while "[*][*]" in s:
        s = s.replace("[*][*]", "[*]")
    return s


class Effects:
    def __init__(self, prog: Program):
        self.prog = prog
        self.memo: Dict[Tuple[str, str], FrozenSet[Eff]] = {}
        self.busy: Set[Tuple[str, str]] = set()
        self.slot_targets: Dict[Tuple[str, str], Set[Tuple[str, str]]] = {}
        self.unresolved: List[str] = []
        self.calls: Dict[Tuple[str, str], Set[Tuple[str, str]]] = {}

    # -- slots -------------------------------------------------------------------
    def slot(self, ctx: str, field: str) -> Set[Tuple[str, str]]:
        key = (ctx, field)
        if key in self.slot_targets:
            return self.slot_targets[key]
        out: Set[Tuple[str, str]] = set()
        K = self.prog.cls(ctx)
        for c in K.mro():
            for f in list(c.methods.values()) + list(c.setters.values()):
                for p in paths(self.prog, ctx, f):
                    for e in p.events:
                        if e.kind == "setfield" and e.name == field and e.value[0] == "bm" and len(e.value) == 4:
                            out.add((e.value[3], e.value[2]))
        self.slot_targets[key] = out
        return out

    # -- main --------------------------------------------------------------------
    def of(self, ctx: Optional[str], f: FuncInfo) -> FrozenSet[Eff]:
        key = (ctx or "", f.qualname)
        if key in self.memo:
            return self.memo[key]
        if key in self.busy:
            return frozenset()
        self.busy.add(key)
        try:
            res = self._compute(ctx, f)
        finally:
            self.busy.discard(key)
        self.memo[key] = res
        return res

    def _compute(self, ctx: Optional[str], f: FuncInfo) -> FrozenSet[Eff]:
        out: Set[Eff] = set()
        ps = paths(self.prog, ctx, f)
        callees = self.calls.setdefault((ctx or "", f.qualname), set())
        for p in ps:
            for e in p.events:
                org = f"{e.func.qualname}@{e.where()}"
                if e.kind == "setfield":
                    for r in roots(e.base):
                        self._add(out, r, (field_path(e.base) + "." if field_path(e.base) else "") + e.name, "rebind", org)
                elif e.kind == "setelem":
                    for r in roots(e.cont):
                        self._add(out, r, field_path(e.cont) or "<local>", "elem", org)
                elif e.kind == "call":
                    if e.inlined:
                        if e.target is not None:
                            callees.add((e.K or "", e.target.qualname))
                        continue
                    tgt = e.target
                    if tgt is not None:
                        self._callee(out, ctx, e, tgt, org, callees)
                    elif e.recv is not None and e.name not in ("<slot>", "<unknown>"):
                        cands = []
                        if e.name not in MUTATING and e.name not in IO_MUTATING and e.name not in READONLY:
                            # receiver class unknown: class-hierarchy resolution by method name
                            cands = [c.methods[e.name] for c in self.prog.classes.values() if e.name in c.methods]
                        if cands:
                            for m in cands:
                                callees.add((m.cls.name, m.qualname))
                                for (r, fld, how, o) in self.of(m.cls.name, m):
                                    if r == "self":
                                        rp = field_path(e.recv)
                                        for rr in roots(e.recv):
                                            self._add(out, rr, (rp + "." if rp else "") + fld, how, o)
                                    elif not r.startswith("param:"):
                                        out.add((r, fld, how, o))
                            continue
                        if e.mutates:
                            how = "io" if e.name in IO_MUTATING else "elem"
                            for r in roots(e.recv):
                                self._add(out, r, field_path(e.recv) or "<local>", how, org)
                            if e.name in ("write",) or e.name == "tofile":
                                pass
                        if e.name in ("read", "readline", "read_byte", "readinto") and not e.mutates and "self" in roots(e.recv):
                            # reading from a mapping / handle the structure keeps open moves its cursor: the next read starts elsewhere
                            from .common import typed_fields
                            fld_ = outer_field(e.recv)
                            if fld_ and "mmap" in typed_fields(self.prog, ctx).get(fld_, set()):
                                self._add(out, "self", field_path(e.recv) or fld_, "cursor", org)
                        if e.name == "tofile" and e.args:
                            for r in roots(e.args[0]):
                                self._add(out, "ext" if r in ("ext",) or r.startswith("param:") else r, "<file>", "io", org)
                    elif e.name == "<slot>":
                        self._slot_call(out, ctx, e, org, callees)
                    elif e.name == "<unknown>":
                        self._add(out, "unknown", show(e.fn)[:60], "call", org)
                    else:
                        fn = e.d.get("fn")
                        nm = e.name
                        if fn is not None and fn[0] == "g" and nm in PURE_GLOBALS:
                            continue
                        if fn is not None and fn[0] == "ext" and (fn[1].split(".")[0] in PURE_EXT_MODULES) and nm not in EXT_EFFECT:
                            continue
                        if nm in EXT_EFFECT:
                            self._add(out, "ext", nm, "io", org)
                            continue
                        if fn is not None and fn[0] == "g" and nm[:1].isupper():
                            continue  # exception constructors etc.
                        self._add(out, "unknown", nm, "call", org)
        return frozenset(out)

    def _add(self, out: Set[Eff], root: str, field: str, how: str, org: str):
        if root == "fresh":
            return
        out.add((root, field, how, org))

    def _callee(self, out, ctx, e, tgt: FuncInfo, org: str, callees):
        cctx = e.K if e.K else (tgt.cls.name if tgt.cls else None)
        callees.add((cctx or "", tgt.qualname))
        eff = self.of(cctx, tgt)
        recv_roots = roots(e.recv) if e.recv is not None else set()
        recv_path = field_path(e.recv) if e.recv is not None else ""
        for (r, fld, how, o) in eff:
            if r == "self":
                for rr in recv_roots:
                    if rr == "class":
                        continue
                    self._add(out, rr, (recv_path + "." if recv_path else "") + fld, how, o)
            elif r.startswith("param:"):
                arg = e.bound.get(r[6:]) if e.d.get("bound") is not None else None
                if arg is None:
                    continue  # default value: fresh
                ap = field_path(arg)
                for rr in roots(arg):
                    self._add(out, rr, (ap + "." if ap and fld != "<file>" else "") + fld if fld != "<local>" else (ap or "<local>"), how, o)
            else:
                out.add((r, fld, how, o))

    def _slot_call(self, out, ctx, e, org, callees):
        slot = e.slot
        if slot[0] == "f":
            name = slot[2]
            if name in HASH_SLOTS:
                return  # hash-strategy contract: pure
            owner_roots = roots(slot[1])
            tg = self.slot(ctx, name) if ctx else set()
            if tg:
                for (cn, mn) in tg:
                    m = self.prog.classes[cn].methods.get(mn)
                    if m is None:
                        continue
                    callees.add((ctx or "", m.qualname))
                    for (r, fld, how, o) in self.of(ctx, m):
                        if r == "self":
                            for rr in owner_roots:
                                self._add(out, rr, fld, how, o)
                        elif not r.startswith("param:"):
                            out.add((r, fld, how, o))
                return
        if slot[0] == "p" and slot[1] in ("func", "hash_function", "hash_func"):
            return  # wrapped digest / hash strategy: contract
        self._add(out, "unknown", "slot " + show(slot)[:50], "call", org)

    def reach(self, ctx: str, f: FuncInfo) -> Set[Tuple[str, str]]:
        """(ctx, qualname) of every function transitively called"""
        self.of(ctx, f)
        seen: Set[Tuple[str, str]] = set()
        stack = [(ctx, f.qualname)]
        while stack:
            k = stack.pop()
            if k in seen:
                continue
            seen.add(k)
            for c in self.calls.get(k, ()):  # type: ignore
                stack.append(c)
        return seen


def fmt_eff(e: Eff) -> str:
    return f"{e[0]}.{e[1]} ({e[2]}) at {e[3]}"
