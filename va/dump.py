"""debug helper: python -m va.dump Class.method [ctx] [light|deep]"""
import sys
from .model import Program
from .walk import Walker
from .expr import show

def main():
    prog = Program.from_dir("/repo")
    target = sys.argv[1]
    ctx = sys.argv[2] if len(sys.argv) > 2 and sys.argv[2] != "-" else None
    mode = sys.argv[3] if len(sys.argv) > 3 else "light"
    if "." in target:
        c, m = target.split(".", 1)
        f = prog.method(c, m)
        ctx = ctx or c
    else:
        f = prog.function(target)
    w = Walker(prog, ctx, inline=mode, param_types={"second": "<ctx>"})
    paths = w.run(f)
    print(f"{f.qualname} in ctx {ctx}: {len(paths)} paths")
    for i, p in enumerate(paths):
        print(f"--- path {i} exit={p.exit[0]} {show(p.exit[1])}")
        for c in p.conds:
            print("   cond", c.truth, show(c.atom))
        for e in p.events:
            print("   ", "  " * (e.depth - 1), e.kind, e.brief(), "loops=", e.loops, "@", e.where())
        for n in p.notes:
            print("   NOTE", n)

main()
