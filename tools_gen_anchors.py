#!/venv/bin/python
"""(development aid) print the qualified names of the pinned tree's functions that are more than a single return; va/anchors.py was
written from this list once and is frozen - do not regenerate it against a changed tree."""
import sys
sys.path.insert(0, "/verif")
from va.model import Program
from va.walk import Walker
prog = Program.from_dir(sys.argv[1] if len(sys.argv) > 1 else "/repo")
w = Walker(prog, None)
out = set()
def visit(f):
    if not w.is_simple(f):
        out.add(f.qualname)
    for nf in getattr(f, "nested", {}).values():
        visit(nf)
for m in prog.modules.values():
    for f in m.functions.values():
        visit(f)
for c in prog.classes.values():
    for f in list(c.methods.values()) + list(c.setters.values()) + list(c.getters.values()):
        visit(f)
print(" ".join(sorted(out)))
