#!/bin/sh
# tools_bw.sh <patch.diff> <pid...> : development loop - (re)create the scratch worktree /tmp/bw with one patch applied and run the named checks against it
P=$1; shift
git -C /repo worktree remove --force /tmp/bw 2>/dev/null
git -C /repo worktree add -q --detach /tmp/bw HEAD || exit 3
( cd /tmp/bw && git apply $P ) || { echo "patch does not apply"; exit 3; }
cd /verif
for c in "$@"; do timeout 600 ./check $c --no-write --root /tmp/bw 2>&1 | grep -E "ANALYSIS-ERROR|^  |^OK" | sed "s/^/[$c] /" | cut -c1-330; done
