#!/bin/sh
# tools_all.sh [quick|thorough] : run every claimed check without writing evidence; print anything that is not a clean OK
T=${1:-quick}
for c in $(/venv/bin/python -c "import json;print(' '.join(x['property_id'] for x in json.load(open('/verif/MANIFEST.json'))['checks']))"); do
  ./check $c --tier $T --no-write 2>&1 | grep -vE "^OK .*(selftest fired=([0-9]+)/\2 silent=([0-9]+)/\3|tier=quick)" | sed "s/^/[$c] /" | cut -c1-260
done
echo "all done ($T)"
