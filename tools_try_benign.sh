#!/bin/sh
# tools_try_benign.sh <patch.diff> : apply a behaviour-preserving patch in a scratch worktree and run EVERY check against it (--root); any VIOLATION is a false alarm
P=$1
WT=/tmp/benign_wt
git -C /repo worktree remove --force $WT 2>/dev/null
git -C /repo worktree add -q --detach $WT HEAD || exit 3
( cd $WT && git apply $P ) || { echo "patch does not apply"; git -C /repo worktree remove --force $WT; exit 3; }
cd /verif
for c in $(/venv/bin/python -c "import json;print(' '.join(x['property_id'] for x in json.load(open('/verif/MANIFEST.json'))['checks']))"); do
  timeout 600 ./check $c --no-write --root $WT 2>&1 | grep -E "ANALYSIS-ERROR|^  " | sed "s/^/[$c] /" | cut -c1-300
done
git -C /repo worktree remove --force $WT
echo "benign patch evaluated"
