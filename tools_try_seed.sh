#!/bin/sh
# usage: tools_try_seed.sh <dir with patch.diff/demo.py> <pid> [more pids...] : confirm the seed, then run checks against /repo with it applied
D=$1; shift
WT=/tmp/seedcheck_wt
git -C /repo worktree remove --force $WT 2>/dev/null
git -C /repo worktree add -q --detach $WT HEAD || exit 3
cd $WT
printf "clean demo: "; PYTHONPATH=. /venv/bin/python $D/demo.py >/dev/null 2>&1; echo "exit $?"
git apply $D/patch.diff || { echo "patch does not apply"; exit 3; }
printf "patched tests: "; /venv/bin/python -m pytest -q -p no:cacheprovider 2>&1 | tail -1
printf "patched demo: "; PYTHONPATH=. /venv/bin/python $D/demo.py >/dev/null 2>&1; echo "exit $?"
cd /verif
git -C /repo worktree remove --force $WT
git -C /repo apply $D/patch.diff || exit 3
for p in "$@"; do ./check $p --no-write 2>&1 | grep -E "VIOLATION|ANALYSIS-ERROR|^OK|^  " | cut -c1-260; done
git -C /repo checkout -- .
git -C /repo status --short | head -3
