#!/bin/sh
# tools_bw_all.sh <patch.diff> : scratch worktree /tmp/bw with one patch applied, EVERY check (quick) run against it; prints what fires
P=$1
git -C /repo worktree remove --force /tmp/bw 2>/dev/null
git -C /repo worktree prune
git -C /repo worktree add -q --detach /tmp/bw HEAD || exit 3
( cd /tmp/bw && git apply $P ) || { echo "patch does not apply"; exit 3; }
cd /verif
for c in $(/venv/bin/python -c "import json;print(' '.join(x['property_id'] for x in json.load(open('/verif/MANIFEST.json'))['checks']))"); do
  timeout 600 ./check $c --no-write --root /tmp/bw 2>&1 | grep -E "ANALYSIS-ERROR|^  " | grep -v KNOWN-FINDING | sed "s/^/[$c] /" | cut -c1-260 | head -3
done
